"""C10 oracle: an exact "field of values at a point" with formal transcendental atoms, the
forward-mode (dual number) derivative evaluator on specs, and the reference evaluator used for
the expression returned by the code under test.

Nothing here imports pymbolic.

Values are ``vf.exact.RatFun`` over Q in formal atoms.  At a rational argument ``u0``

* ``exp(u0)``               is the atom  E(u0)                       (exp(0) = 1),
* ``sin, cos, tan`` at u0   are rational in the atom  T(u0) = tan(u0/2)   (half-angle
  parametrisation: sin = 2t/(1+t^2), cos = (1-t^2)/(1+t^2)), so every identity between the three
  (sin^2+cos^2 = 1, 1/cos^2 = 1+tan^2, ...) is decided exactly by RatFun ==,
* ``sinh, cosh, tanh, expm1`` are rational in E(u0),
* ``log(u0)``               is the atom  L(u0)  (u0 > 0 required, log(1) = 0),
* ``f0 ** g0`` with a non-integer exponent is  f0**floor(c) * R(f0, g0 - floor(c))  where c is the
  constant term of g0 (f0 > 0 required), so  f**g  and  f**(g-1)  share their atom.

Equality of two such values implies equality of the real numbers they denote (soundness of a
"pass"); the atoms are treated as algebraically independent, which only matters for completeness.
Floating point is used for one purpose only: to decide on which side of a break point
(sign of an argument of log / fabs / copysign / a comparison, positivity of a base) a value that
contains atoms lies; a value closer than ``EPS`` to the break point makes the point undecidable
and the point is skipped.
"""
from __future__ import annotations

import math
from fractions import Fraction

from vf.exact import Poly, RatFun
from vf.refsem import Ref

EPS = 1e-6
MAX_ABS_EXPONENT = 64


class Skip(Exception):
    """The evaluation point is outside the domain of the input (or undecidable)."""
    def __init__(self, reason):
        super().__init__(reason)
        self.reason = reason


def lift(x):
    if isinstance(x, RatFun):
        return x
    if isinstance(x, bool):
        return RatFun(Fraction(int(x)))
    if isinstance(x, int):
        return RatFun(Fraction(x))
    if isinstance(x, Fraction):
        return RatFun(x)
    if isinstance(x, float):
        if math.isnan(x) or math.isinf(x):
            raise ValueError("non-finite float constant")
        return RatFun(Fraction(x))          # the exact binary value
    raise TypeError(f"not a field value: {x!r}")


def const_of(v):
    """Fraction if *v* is a constant of the field, else None."""
    if v.d.is_const() and v.n.is_const():
        return v.n.const_value() / v.d.const_value()
    return None


class Field:
    """Atom registry of one evaluation point (shared by oracle and reference evaluation)."""

    def __init__(self):
        self.atoms = []          # (kind, args (tuple of RatFun), name, float value)
        self.fval = {}           # name -> float

    # -- atoms ------------------------------------------------------------------------------
    def atom(self, kind, args, approx):
        for k, a, name, _ in self.atoms:
            if k == kind and len(a) == len(args) and all(x == y for x, y in zip(a, args)):
                return RatFun.atom(name)
        cs = [const_of(a) for a in args]
        if all(c is not None for c in cs):
            name = (kind, *[str(c) for c in cs])
        else:
            name = (kind, f"#{len(self.atoms)}")
        try:
            fv = approx()
        except (OverflowError, ValueError, ZeroDivisionError):
            raise Skip("float-range") from None
        if isinstance(fv, complex) or math.isnan(fv) or math.isinf(fv):
            raise Skip("float-range")
        self.atoms.append((kind, tuple(args), name, fv))
        self.fval[name] = fv
        return RatFun.atom(name)

    def describe(self):
        return {repr(name): f"{kind}({', '.join(repr(a) for a in args)}) ~ {fv:.6g}"
                for kind, args, name, fv in self.atoms if name[1].startswith("#")}

    # -- float shadow (break-point side decisions only) ------------------------------------------
    def _fpoly(self, p: Poly):
        tot = 0.0
        for m, c in p.t.items():
            term = float(c)
            for k, e in m:
                term *= self.fval[k] ** e
            tot += term
        return tot

    def approx(self, v):
        c = const_of(v)
        if c is not None:
            return float(c)
        try:
            return self._fpoly(v.n) / self._fpoly(v.d)
        except (ZeroDivisionError, OverflowError):
            raise Skip("float-range") from None

    def sign(self, v):
        """-1, 0, +1; exact for constants, by float shadow otherwise (Skip when too close)."""
        c = const_of(v)
        if c is not None:
            return (c > 0) - (c < 0)
        if v.is_zero():
            return 0
        a = self.approx(v)
        if abs(a) < EPS:
            raise Skip("undecidable-sign")
        return 1 if a > 0 else -1

    # -- elementary functions -----------------------------------------------------------------
    def _fexp(self, u):
        a = self.approx(u)
        if abs(a) > 200:
            raise Skip("float-range")
        return math.exp(a)

    def exp(self, u):
        u = lift(u)
        if u.is_zero():
            return lift(1)
        return self.atom("E", (u,), lambda: self._fexp(u))

    def _half(self, u):
        u = lift(u)
        if u.is_zero():
            return lift(0)
        return self.atom("T", (u,), lambda: math.tan(self.approx(u) / 2))

    def sin(self, u):
        t = self._half(u)
        return 2 * t / (1 + t * t)

    def cos(self, u):
        t = self._half(u)
        return (1 - t * t) / (1 + t * t)

    def tan(self, u):
        t = self._half(u)
        return 2 * t / (1 - t * t)

    def log(self, u):
        u = lift(u)
        if self.sign(u) <= 0:
            raise Skip("log-domain")
        if u == lift(1):
            return lift(0)
        return self.atom("L", (u,), lambda: math.log(self.approx(u)))

    def sinh(self, u):
        e = self.exp(u)
        return (e - 1 / e) / 2

    def cosh(self, u):
        e = self.exp(u)
        return (e + 1 / e) / 2

    def tanh(self, u):
        e = self.exp(u)
        return (e * e - 1) / (e * e + 1)

    def expm1(self, u):
        return self.exp(u) - 1

    def fabs(self, u):
        u = lift(u)
        s = self.sign(u)
        if s == 0:
            raise Skip("break:fabs")
        return u * s

    def sign_of(self, u):
        s = self.sign(lift(u))
        if s == 0:
            raise Skip("break:sign")
        return lift(s)

    def copysign(self, c, u):
        c, u = lift(c), lift(u)
        return c * self.sign(c) * self.sign_of(u)

    # -- power ------------------------------------------------------------------------------
    def power(self, f, g, python_zero_power=True):
        """f ** g.  With *python_zero_power* 0**0 is 1 as in Python (used for the returned
        derivative and inside derivative rules); the oracle evaluates the INPUT with
        python_zero_power=False: a zero base with exponent <= 0 is not a point of the domain."""
        f, g = lift(f), lift(g)
        gc = const_of(g)
        if gc is not None and gc.denominator == 1:
            n = int(gc)
            if abs(n) > MAX_ABS_EXPONENT:
                raise Skip("too-big")
            if n <= 0 and f.is_zero():
                if n == 0 and python_zero_power:
                    return lift(1)
                raise Skip("power-domain")
            return f ** n
        # real power: base must be positive
        if self.sign(f) <= 0:
            raise Skip("power-domain")
        if not g.d.is_const():
            raise Skip("exponent-not-polynomial")
        c = g.n.const_value() / g.d.const_value()
        k = math.floor(c)
        if abs(k) > MAX_ABS_EXPONENT:
            raise Skip("too-big")
        h = g - k
        if f == lift(1):
            return lift(1)
        r = self.atom("R", (f, h), lambda: self.approx(f) ** self.approx(h))
        return f ** k * r

    # -- comparison -----------------------------------------------------------------------------
    def compare(self, op, left, right):
        s = self.sign(lift(left) - lift(right))
        if s == 0:
            raise Skip("break:comparison")
        return {"<": s < 0, "<=": s < 0, ">": s > 0, ">=": s > 0, "==": False, "!=": True}[op]


# {{{ the function tables of the ORACLE (textbook; written independently of the implementation)

SMOOTH = ("sin", "cos", "tan", "log", "exp", "sinh", "cosh", "tanh", "expm1")


def value_of(fld: Field, name, u):
    return getattr(fld, name)(u)


def derivative_of(fld: Field, name, u):
    """d/du name(u) at u (a field value)."""
    if name == "sin":
        return fld.cos(u)
    if name == "cos":
        return -fld.sin(u)
    if name == "tan":
        c = fld.cos(u)
        return 1 / (c * c)                       # sec^2
    if name == "log":
        return 1 / lift(u)
    if name == "exp":
        return fld.exp(u)
    if name == "sinh":
        return fld.cosh(u)
    if name == "cosh":
        return fld.sinh(u)
    if name == "tanh":
        c = fld.cosh(u)
        return 1 / (c * c)                       # sech^2
    if name == "expm1":
        return fld.exp(u)
    if name == "fabs":
        return fld.sign_of(u)                    # away from 0
    raise KeyError(name)

# }}}


# {{{ classification of calls in the input

def math_call(s):
    """('sin', [args]) for Call(Lookup(Variable math, 'sin'), args), else None."""
    if s[0] != "Call":
        return None
    f = s[1]
    if f[0] == "Lookup" and f[1] == ("Variable", ("str", "math")) and f[2][0] == "str":
        return f[2][1], list(s[2][1:])
    return None


def user_call(s, user):
    """(arity, value function, [partial functions]) if *s* calls a caller-supplied function of the
    table *user* (name -> entry) with the right number of arguments, else None."""
    if s[0] == "Call" and s[1][0] == "Variable" and s[1][1][1] in user:
        ent = user[s[1][1][1]]
        if len(s[2]) - 1 == ent[0]:
            return ent
    return None


def call_class(s):
    """'smooth' | 'fabs' | 'sign' | 'log2' | 'unknown' for a Call node.  'log2' is math.log with an
    explicit base: not in the derivative table, but a function Python's math really has with that
    arity, so its true derivative is known to the oracle."""
    mc = math_call(s)
    if mc is not None:
        name, args = mc
        if name in SMOOTH and len(args) == 1:
            return "smooth"
        if name == "fabs" and len(args) == 1:
            return "fabs"
        if name == "copysign" and len(args) == 2 and args[0][0] == "int":
            return "sign"
        if name == "log" and len(args) == 2:
            return "log2"
    return "unknown"

# }}}


# {{{ forward-mode dual numbers on specs (the ORACLE)

class NotInFragment(Exception):
    pass


class _Undef:
    """Absorbing element: a partial derivative that does not exist at the point (general power
    rule with a non-positive base).  Any arithmetic with it stays undefined."""
    def _same(self, *a):
        return self
    __add__ = __radd__ = __sub__ = __rsub__ = __mul__ = __rmul__ = _same
    __truediv__ = __rtruediv__ = __neg__ = _same

    def is_zero(self):
        return False

    def __repr__(self):
        return "UNDEF"


UNDEF = _Undef()


class DualEval:
    """Evaluates an input spec to (value, [d/dv for v in dvars]) at a point.

    *point*: {variable name: Fraction, (aggregate name, index): Fraction};
    *dvars*: specs of the differentiation variables (Variable / Subscript specs);
    *depends*: callable (spec, k) -> does the subtree structurally mention dvars[k]."""

    def __init__(self, fld, point, dvars, depends, user=None):
        self.fld = fld
        self.point = point
        self.user = user or {}
        self.dvars = list(dvars)
        self.n = len(self.dvars)
        self.depends = depends
        self.zero = lift(0)

    def zeros(self):
        return [self.zero] * self.n

    def leafdual(self, s):
        return [lift(1) if s == dv else self.zero for dv in self.dvars]

    def ev(self, s):
        t = s[0]
        if t in ("int", "float", "bool"):
            return lift(s[1]), self.zeros()
        if t == "Variable":
            return lift(self.point[s[1][1]]), self.leafdual(s)
        if t == "Subscript":
            if s[1][0] != "Variable" or s[2][0] != "int":
                raise NotInFragment(t)
            return lift(self.point[(s[1][1][1], s[2][1])]), self.leafdual(s)
        if t == "Sum":
            v, d = self.zero, self.zeros()
            for c in s[1][1:]:
                cv, cd = self.ev(c)
                v = v + cv
                d = [a + b for a, b in zip(d, cd)]
            return v, d
        if t == "Product":
            v, d = lift(1), self.zeros()
            for c in s[1][1:]:
                cv, cd = self.ev(c)
                d = [a * cv + v * b for a, b in zip(d, cd)]      # Leibniz
                v = v * cv
            return v, d
        if t == "Quotient":
            fv, fd = self.ev(s[1])
            gv, gd = self.ev(s[2])
            if gv.is_zero():
                raise Skip("pole")
            g2 = gv * gv
            return fv / gv, [(a * gv - fv * b) / g2 for a, b in zip(fd, gd)]
        if t == "Power":
            return self.power(s)
        if t == "Call":
            return self.call(s)
        if t == "If":
            c = s[1]
            if c[0] != "Comparison":
                raise NotInFragment("condition")
            lv, _ = self.ev(c[1])
            rv, _ = self.ev(c[3])
            return self.ev(s[2] if self.fld.compare(c[2][1], lv, rv) else s[3])
        if t == "CommonSubexpression":
            return self.ev(s[1])
        raise NotInFragment(t)

    def power(self, s):
        fld = self.fld
        fv, fd = self.ev(s[1])
        gv, gd = self.ev(s[2])
        val = fld.power(fv, gv, python_zero_power=False)
        exp_dep = [self.depends(s[2], k) for k in range(self.n)]
        out = []
        logf = None
        for k in range(self.n):
            if not exp_dep[k]:
                # exponent constant with respect to this variable: g * f**(g-1) * f'
                if fd[k].is_zero():
                    out.append(self.zero)
                elif gv.is_zero():
                    out.append(self.zero)
                elif gv == lift(1):
                    out.append(fd[k])
                else:
                    out.append(gv * fld.power(fv, gv - 1) * fd[k])
            else:
                # general rule, needs a positive base:  f**g * (g' log f + g f'/f)
                if fld.sign(fv) <= 0:
                    out.append(UNDEF)              # this partial derivative does not exist here
                    continue
                if logf is None:
                    logf = fld.log(fv)
                out.append(val * (gd[k] * logf + gv * fd[k] / fv))
        return val, out

    def call(self, s):
        cls = call_class(s)
        uf = user_call(s, self.user)
        if uf is not None:
            # caller-supplied function: chain rule over all arguments with the oracle's partials
            _, fval, partials = uf
            duals = [self.ev(a) for a in s[2][1:]]
            vals = [lift(v) for v, _ in duals]
            out = self.zeros()
            for pf, (_, ad) in zip(partials, duals):
                pv = lift(pf(*vals))
                out = [o + pv * b for o, b in zip(out, ad)]
            return lift(fval(*vals)), out
        if cls == "unknown":
            raise NotInFragment("unknown function")
        name, args = math_call(s)
        fld = self.fld
        if cls == "sign":
            uv, ud = self.ev(args[1])
            return fld.copysign(args[0][1], uv), self.zeros()      # piecewise constant
        if cls == "log2":
            # log_b(u) = ln u / ln b;  d = u'/(u ln b) - ln u * b' / (b ln(b)^2)
            uv, ud = self.ev(args[0])
            bv, bd = self.ev(args[1])
            lu, lb = fld.log(uv), fld.log(bv)
            if lb.is_zero():
                raise Skip("pole")
            return lu / lb, [du / (uv * lb) - lu * db / (bv * lb * lb) for du, db in zip(ud, bd)]
        uv, ud = self.ev(args[0])
        val = value_of(fld, name, uv)
        dv = derivative_of(fld, name, uv)
        return val, [dv * b for b in ud]

# }}}


# {{{ reference evaluation of the expression returned by the code under test

class _MathNS:
    """What ``math`` is bound to: attribute access gives the field's functions."""
    NAMES = (*SMOOTH, "fabs", "copysign")

    def __init__(self, fld):
        self._fld = fld

    def __getattr__(self, name):
        if name == "log":
            return self._log
        if name in _MathNS.NAMES:
            return getattr(self._fld, name)
        raise AttributeError(name)

    def _log(self, u, base=None):
        if base is None:
            return self._fld.log(u)
        lb = self._fld.log(base)
        if lb.is_zero():
            raise ZeroDivisionError("log base 1")
        return self._fld.log(u) / lb


class _Agg:
    def __init__(self, name, point):
        self.name, self.point = name, point

    def __getitem__(self, k):
        c = const_of(lift(k))
        if c is None or c.denominator != 1:
            raise TypeError("non-integer subscript")
        return lift(self.point[(self.name, int(c))])


class DRef(Ref):
    """vf.refsem.Ref over the field: constants are lifted exactly (a float constant denotes its
    exact binary value), powers / comparisons use the field's rules."""

    def __init__(self, fld, point, bare_log=True, user=None):
        env = {name: ent[1] for name, ent in (user or {}).items()}
        for k, v in point.items():
            if isinstance(k, tuple):
                env.setdefault(k[0], _Agg(k[0], point))
            else:
                env[k] = lift(v)
        env["math"] = _MathNS(fld)
        if bare_log:
            env["log"] = fld.log
        super().__init__(env)
        self.fld = fld
        self.used_bare_log = False

    def ev(self, s):
        t = s[0]
        if t in ("int", "float", "bool"):
            return lift(s[1])
        if t == "frac":
            return lift(Fraction(s[1], s[2]))
        return super().ev(s)

    def n_Variable(self, s):
        if s[1][1] == "log":
            self.used_bare_log = True
        return super().n_Variable(s)

    def n_Sum(self, s):
        acc = lift(0)
        for c in s[1][1:]:
            acc = acc + self.ev(c)
        return acc

    def n_Product(self, s):
        acc = lift(1)
        for c in s[1][1:]:
            acc = acc * self.ev(c)
        return acc

    def n_Power(self, s):
        return self.fld.power(self.ev(s[1]), self.ev(s[2]))

    def n_Comparison(self, s):
        return self.fld.compare(s[2][1], self.ev(s[1]), self.ev(s[3]))

# }}}


# {{{ floating-point tail evaluation (evaluability far from the origin)

class FloatSkip(Exception):
    """The input (or its true derivative) is not representable at this float point."""


def _stable_table(name, u):
    """(f(u), f'(u)) in floats with overflow-free textbook formulas (independent of the code under
    test).  Raises OverflowError / ValueError where f itself is not evaluable."""
    if name == "sin":
        return math.sin(u), math.cos(u)
    if name == "cos":
        return math.cos(u), -math.sin(u)
    if name == "tan":
        c = math.cos(u)
        return math.tan(u), 1.0 / (c * c)
    if name == "log":
        return math.log(u), 1.0 / u
    if name == "exp":
        e = math.exp(u)
        return e, e
    if name == "sinh":
        return math.sinh(u), math.cosh(u)
    if name == "cosh":
        return math.cosh(u), math.sinh(u)
    if name == "tanh":
        q = math.exp(-2.0 * abs(u))              # sech^2 = 4q/(1+q)^2, never overflows
        return math.tanh(u), 4.0 * q / ((1.0 + q) * (1.0 + q))
    if name == "expm1":
        return math.expm1(u), math.exp(u)
    if name == "fabs":
        if u == 0:
            raise FloatSkip("break")
        return math.fabs(u), math.copysign(1.0, u)
    raise KeyError(name)


def _fin(*vals):
    for v in vals:
        if math.isnan(v) or math.isinf(v):
            raise FloatSkip("not finite")
    return vals if len(vals) > 1 else vals[0]


def float_dual(s, env, dv):
    """Forward mode in floats: (value, d/d dv) of the input spec *s* at *env* (names -> float).
    Every intermediate of the textbook rules must be finite, else the point is skipped."""
    return _fin(*_float_dual(s, env, dv))


def _float_dual(s, env, dv):
    t = s[0]
    if t in ("int", "float"):
        return float(s[1]), 0.0
    if t == "Variable":
        return float(env[s[1][1]]), (1.0 if s == dv else 0.0)
    if t == "Sum":
        v = d = 0.0
        for c in s[1][1:]:
            cv, cd = float_dual(c, env, dv)
            v, d = v + cv, d + cd
        return v, d
    if t == "Product":
        v, d = 1.0, 0.0
        for c in s[1][1:]:
            cv, cd = float_dual(c, env, dv)
            v, d = _fin(v * cv, _fin(d * cv) + _fin(v * cd))
        return v, d
    if t == "Quotient":
        fv, fd = float_dual(s[1], env, dv)
        gv, gd = float_dual(s[2], env, dv)
        if gv == 0:
            raise FloatSkip("pole")
        g2 = _fin(gv * gv)
        return fv / gv, _fin(_fin(fd * gv) - _fin(fv * gd)) / g2
    if t == "Power":
        if s[2][0] not in ("int", "float"):
            raise NotInFragment("float families: constant exponents only")
        fv, fd = float_dual(s[1], env, dv)
        n = s[2][1]
        if float(n) != int(n) and fv <= 0:
            raise FloatSkip("real power of a non-positive base")
        if fv == 0 and n <= 0:
            raise FloatSkip("pole")
        return fv ** n, (n * _fin(fv ** (n - 1)) * fd if n else 0.0)
    if t == "CommonSubexpression":
        return float_dual(s[1], env, dv)
    if t == "Call":
        cls = call_class(s)
        name, args = math_call(s) if cls != "unknown" else (None, None)
        if cls == "sign":
            uv, _ = float_dual(args[1], env, dv)
            if uv == 0:
                raise FloatSkip("break")
            return math.copysign(float(args[0][1]), uv), 0.0
        if cls in ("smooth", "fabs"):
            uv, ud = float_dual(args[0], env, dv)
            fv, fdv = _stable_table(name, uv)
            return fv, _fin(fdv) * ud
    raise NotInFragment(t)

# }}}

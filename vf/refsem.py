"""Reference semantics on specs: one clause per node type, each the plain Python operator.

Independent of pymbolic's mappers.  ``evaluate(spec, env)`` returns a value or raises; ``outcome``
wraps any callable into ("ok", value) / ("err", ExceptionClassName).
"""
from __future__ import annotations

import math
import operator

import numpy as np


class UnknownVariable(Exception):
    """Reference-side 'unknown variable' report; carries the name."""
    def __init__(self, name):
        super().__init__(name)
        self.name = name


class TooBig(Exception):
    """The reference refuses to compute astronomically large integers (C-level loops cannot be
    interrupted by the watchdog); checks skip the environment."""


def guard_power(b, e):
    from fractions import Fraction
    if isinstance(e, (int, Fraction)) and abs(e) > 4096:
        raise TooBig()
    if isinstance(b, int) and isinstance(e, int) and b.bit_length() * abs(e) > 100000:
        raise TooBig()
    if isinstance(b, Fraction) and isinstance(e, int) and \
            (b.numerator.bit_length() + b.denominator.bit_length()) * abs(e) > 100000:
        raise TooBig()


def is_skip(o) -> bool:
    return o[0] == "err" and o[1] == "TooBig"


_CMP = {"==": operator.eq, "!=": operator.ne, "<": operator.lt, "<=": operator.le,
        ">": operator.gt, ">=": operator.ge}

_CONST_TAGS = ("int", "float", "bool", "complex")


class Ref:
    """Reference evaluator.  *hook(spec, value)* is called after each node evaluation (used for
    evaluation counting in C12)."""

    def __init__(self, env, hook=None, cse_once=False):
        self.env = env
        self.hook = hook
        self.cse_once = cse_once
        self._cse = {}

    def __call__(self, s):
        v = self.ev(s)
        return v

    def ev(self, s):
        t = s[0]
        m = getattr(self, "n_" + t, None)
        if m is None:
            if t in _CONST_TAGS:
                return s[1]
            raise NotImplementedError(f"refsem: no clause for {t}")
        v = m(s)
        if self.hook is not None:
            self.hook(s, v)
        return v

    def n_frac(self, s):
        from fractions import Fraction
        return Fraction(s[1], s[2])

    # containers
    def n_tuple(self, s):
        return tuple([self.ev(c) for c in s[1:]])

    def n_list(self, s):
        return [self.ev(c) for c in s[1:]]

    def n_array(self, s):
        a = np.empty(s[1], dtype=object)
        for i, c in zip(np.ndindex(s[1]), s[2:]):
            a[i] = self.ev(c)
        return a

    def n_np(self, s):
        return np.dtype(s[1]).type(s[2])

    # leaves
    def n_Variable(self, s):
        name = s[1][1]
        try:
            return self.env[name]
        except KeyError:
            raise UnknownVariable(name) from None

    def n_NaN(self, s):
        if s[1] == ("none",):
            return math.nan
        from vf.spec import build
        return build(s[1])(float("nan"))

    # structural
    def n_Call(self, s):
        params = [self.ev(c) for c in s[2][1:]]
        return self.ev(s[1])(*params)

    def n_CallWithKwargs(self, s):
        params = [self.ev(c) for c in s[2][1:]]
        kw = {k: self.ev(v) for k, v in s[3][1:]}
        return self.ev(s[1])(*params, **kw)

    def n_Subscript(self, s):
        agg = self.ev(s[1])
        return agg[self.ev(s[2])]

    def n_Lookup(self, s):
        return getattr(self.ev(s[1]), s[2][1])

    # arithmetic
    def n_Sum(self, s):
        # Python's sum(): 0 + c0 + c1 + ...
        acc = 0
        for c in s[1][1:]:
            acc = acc + self.ev(c)
        return acc

    def n_Product(self, s):
        acc = 1
        for c in s[1][1:]:
            acc = acc * self.ev(c)
        return acc

    def n_Quotient(self, s):
        return self.ev(s[1]) / self.ev(s[2])

    def n_FloorDiv(self, s):
        return self.ev(s[1]) // self.ev(s[2])

    def n_Remainder(self, s):
        return self.ev(s[1]) % self.ev(s[2])

    def n_Power(self, s):
        b, e = self.ev(s[1]), self.ev(s[2])
        guard_power(b, e)
        return b ** e

    def n_LeftShift(self, s):
        a, n = self.ev(s[1]), self.ev(s[2])
        if isinstance(n, int) and n > 4096:
            raise TooBig()
        return a << n

    def n_RightShift(self, s):
        return self.ev(s[1]) >> self.ev(s[2])

    def n_BitwiseNot(self, s):
        return ~self.ev(s[1])

    def _fold(self, s, op):
        ch = s[1][1:]
        acc = self.ev(ch[0])            # IndexError-free: empty -> TypeError like reduce()
        for c in ch[1:]:
            acc = op(acc, self.ev(c))
        return acc

    def n_BitwiseOr(self, s):
        if len(s[1]) == 1:
            raise TypeError("reduce() of empty iterable with no initial value")
        return self._fold(s, operator.or_)

    def n_BitwiseXor(self, s):
        if len(s[1]) == 1:
            raise TypeError("reduce() of empty iterable with no initial value")
        return self._fold(s, operator.xor)

    def n_BitwiseAnd(self, s):
        if len(s[1]) == 1:
            raise TypeError("reduce() of empty iterable with no initial value")
        return self._fold(s, operator.and_)

    # logic (truth-valued, short-circuit left to right)
    def n_LogicalNot(self, s):
        return not self.ev(s[1])

    def n_LogicalOr(self, s):
        for c in s[1][1:]:
            if self.ev(c):
                return True
        return False

    def n_LogicalAnd(self, s):
        for c in s[1][1:]:
            if not self.ev(c):
                return False
        return True

    def n_Comparison(self, s):
        left = self.ev(s[1])
        right = self.ev(s[3])
        return _CMP[s[2][1]](left, right)

    def n_If(self, s):
        if self.ev(s[1]):
            return self.ev(s[2])
        return self.ev(s[3])

    def n_Min(self, s):
        return min(self.ev(c) for c in s[1][1:])

    def n_Max(self, s):
        return max(self.ev(c) for c in s[1][1:])

    def n_CommonSubexpression(self, s):
        if self.cse_once:
            if s in self._cse:
                return self._cse[s]
            v = self._cse[s] = self.ev(s[1])
            return v
        return self.ev(s[1])


def evaluate(s, env, hook=None):
    return Ref(env, hook)(s)


# {{{ outcomes

def outcome(fn, *args, **kwargs):
    try:
        return ("ok", fn(*args, **kwargs))
    except RecursionError:
        raise
    except Exception as e:  # noqa: BLE001
        return ("err", type(e).__name__, str(e)[:200])


def values_equal(a, b) -> bool:
    """== on values; both-NaN equal; containers compared recursively and by kind."""
    if isinstance(a, np.ndarray) or isinstance(b, np.ndarray):
        if not (isinstance(a, np.ndarray) and isinstance(b, np.ndarray)):
            return False
        if a.shape != b.shape:
            return False
        return all(values_equal(a[i], b[i]) for i in np.ndindex(a.shape))
    if isinstance(a, (tuple, list)) or isinstance(b, (tuple, list)):
        if type(a) is not type(b) or len(a) != len(b):
            return False
        return all(values_equal(x, y) for x, y in zip(a, b))
    if isinstance(a, float) and isinstance(b, float) and math.isnan(a) and math.isnan(b):
        return True
    if isinstance(a, complex) and isinstance(b, complex) and a != a and b != b:
        return True
    if callable(a) and callable(b) and hasattr(a, "__name__") and hasattr(b, "__name__"):
        return a.__name__ == b.__name__
    try:
        r = a == b
        if isinstance(r, np.ndarray):
            return bool(r.all())
        return bool(r)
    except Exception:  # noqa: BLE001
        return False


def outcomes_equal(a, b, compare_message=False) -> bool:
    if a[0] != b[0]:
        return False
    if a[0] == "err":
        return a[1] == b[1] and (not compare_message or a[2] == b[2])
    return values_equal(a[1], b[1])


def show_outcome(o) -> str:
    if o[0] == "ok":
        return f"ok:{o[1]!r}"[:200]
    return f"err:{o[1]}({o[2]})"[:200]

# }}}

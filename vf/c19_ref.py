"""Reference models and helpers for C19 (exact-arithmetic helpers and number types).

Everything here is independent of pymbolic: exact univariate polynomials over Q (``QPoly``), the
O(n^2) discrete Fourier transform, a free-monoid element (``Word``), value codecs that keep check
items JSON-able, a deterministic call-budget runner (detects non-termination without a timer) and a
greedy canonical shrinker for flat inputs.
"""
from __future__ import annotations

import cmath
import math
import sys
from fractions import Fraction

# {{{ codecs: items must be nested tuples of JSON scalars


def enc(v):
    """int | Fraction -> JSON-able."""
    if isinstance(v, bool):
        raise TypeError("bool is not a coefficient")
    if isinstance(v, int):
        return v
    if isinstance(v, Fraction):
        if v.denominator == 1:
            return ("F", v.numerator, 1)
        return ("F", v.numerator, v.denominator)
    raise TypeError(f"cannot encode {v!r}")


def dec(v):
    if isinstance(v, (tuple, list)):
        assert v[0] == "F"
        return Fraction(v[1], v[2])
    return v


def enc_terms(terms):
    return tuple((e, enc(c)) for e, c in terms)


def dec_terms(terms):
    return tuple((e, dec(c)) for e, c in terms)


def show_num(c):
    return str(c)


def show_terms(terms):
    """Canonical, compact rendering used in signatures: [(0, 1), (2, -1/2)]."""
    return "[" + ", ".join(f"({e}, {show_num(c)})" for e, c in terms) + "]"

# }}}


# {{{ exact univariate polynomials over Q

class QPoly:
    """Exact polynomial in one indeterminate over Q, {exponent: nonzero Fraction}."""
    __slots__ = ("c",)

    def __init__(self, terms=()):
        d = {}
        for e, c in terms:
            d[e] = d.get(e, 0) + Fraction(c)
        self.c = {e: c for e, c in d.items() if c != 0}

    @staticmethod
    def const(v):
        return QPoly(((0, v),))

    @property
    def deg(self):
        return max(self.c, default=-1)

    @property
    def lead(self):
        return self.c[self.deg]

    def is_zero(self):
        return not self.c

    def terms(self):
        return tuple(sorted(self.c.items()))

    def __add__(self, o):
        return QPoly((*self.c.items(), *o.c.items()))

    def __neg__(self):
        return QPoly((e, -c) for e, c in self.c.items())

    def __sub__(self, o):
        return self + (-o)

    def __mul__(self, o):
        return QPoly((e1 + e2, c1 * c2) for e1, c1 in self.c.items() for e2, c2 in o.c.items())

    def scale(self, s):
        return QPoly((e, c * s) for e, c in self.c.items())

    def __pow__(self, n):
        assert isinstance(n, int) and n >= 0
        r = QPoly.const(1)
        for _ in range(n):
            r = r * self
        return r

    def divmod_field(self, o):
        """Euclidean division in Q[x]: self == q*o + r, deg r < deg o."""
        if o.is_zero():
            raise ZeroDivisionError
        q = QPoly()
        r = self
        while r.deg >= o.deg:
            f = QPoly(((r.deg - o.deg, r.lead / o.lead),))
            q = q + f
            r = r - f * o
        return q, r

    def divides(self, o):
        """self | o in Q[x]."""
        if self.is_zero():
            return o.is_zero()
        return o.divmod_field(self)[1].is_zero()

    def value(self, pt):
        return sum((c * Fraction(pt) ** e for e, c in self.c.items()), Fraction(0))

    def all_integral(self):
        return all(c.denominator == 1 for c in self.c.values())

    def __eq__(self, o):
        return isinstance(o, QPoly) and self.c == o.c

    def __hash__(self):
        return hash(frozenset(self.c.items()))

    def __repr__(self):
        return show_terms(self.terms())

# }}}


# {{{ discrete Fourier transform by its definition

def dft(x, sign=1):
    """F[x]_k = sum_j z^(k j) x_j,  z = exp(-2 i pi sign / n) -- the docstring of fft(); *sign* is
    any integer."""
    n = len(x)
    root = [cmath.exp(-2j * math.pi * m / n) for m in range(n)]        # exp(-2 i pi / n)**m
    # exact values on the axes (cos/sin of multiples of pi/2 carry 1e-16 dust otherwise)
    for m in range(n):
        if (4 * m) % n == 0:
            root[m] = (1, -1j, -1, 1j)[(4 * m) // n]
    return [sum(root[(sign * k * j) % n] * complex(x[j]) for j in range(n)) for k in range(n)]

# }}}


# {{{ free monoid

class Word:
    """Element of the free monoid on letters; ``*`` is concatenation, the integer 1 is accepted as
    the neutral element on either side (so that ``one=1`` works like in any numeric monoid)."""
    __slots__ = ("w",)

    def __init__(self, w):
        self.w = w

    def __mul__(self, o):
        if isinstance(o, Word):
            return Word(self.w + o.w)
        if isinstance(o, int) and not isinstance(o, bool) and o == 1:
            return self
        return NotImplemented

    def __rmul__(self, o):
        if isinstance(o, int) and not isinstance(o, bool) and o == 1:
            return self
        return NotImplemented

    def __eq__(self, o):
        if isinstance(o, Word):
            return self.w == o.w
        if isinstance(o, int) and not isinstance(o, bool):
            return o == 1 and self.w == ""
        return NotImplemented

    def __hash__(self):
        return hash(self.w)

    def __repr__(self):
        return f"Word({self.w!r})"

# }}}


# {{{ finite monoids (huge exponents stay computable) and a mutable matrix

class ModP:
    """Residue class modulo p under multiplication; the int 1 is accepted as neutral element."""
    __slots__ = ("v", "p")

    def __init__(self, v, p):
        self.v = v % p
        self.p = p

    def __mul__(self, o):
        if isinstance(o, ModP) and o.p == self.p:
            return ModP(self.v * o.v, self.p)
        if isinstance(o, int) and not isinstance(o, bool) and o == 1:
            return ModP(self.v, self.p)
        return NotImplemented

    __rmul__ = __mul__

    def __eq__(self, o):
        return isinstance(o, ModP) and (self.v, self.p) == (o.v, o.p)

    def __hash__(self):
        return hash((self.v, self.p))

    def __repr__(self):
        return f"ModP({self.v}, {self.p})"


class Perm:
    """Permutation of range(k); (a*b)(i) = a(b(i))."""
    __slots__ = ("t",)

    def __init__(self, t):
        self.t = tuple(t)

    def __mul__(self, o):
        if isinstance(o, Perm):
            return Perm(self.t[i] for i in o.t)
        if isinstance(o, int) and not isinstance(o, bool) and o == 1:
            return Perm(self.t)
        return NotImplemented

    __rmul__ = __mul__

    def __eq__(self, o):
        return isinstance(o, Perm) and self.t == o.t

    def __hash__(self):
        return hash(self.t)

    def __repr__(self):
        return f"Perm{self.t}"


class MutMat:
    """Mutable square integer matrix WITH in-place multiplication (like numpy.matrix)."""

    def __init__(self, rows):
        self.rows = [list(r) for r in rows]

    def _prod(self, o):
        n = len(self.rows)
        return [[sum(self.rows[i][k] * o.rows[k][j] for k in range(n)) for j in range(n)]
                for i in range(n)]

    def __mul__(self, o):
        if isinstance(o, MutMat):
            return MutMat(self._prod(o))
        if isinstance(o, int) and not isinstance(o, bool) and o == 1:
            return MutMat(self.rows)
        return NotImplemented

    def __rmul__(self, o):
        if isinstance(o, int) and not isinstance(o, bool) and o == 1:
            return MutMat(self.rows)
        return NotImplemented

    def __imul__(self, o):
        if not isinstance(o, MutMat):
            return NotImplemented
        self.rows = self._prod(o)
        return self

    def __eq__(self, o):
        return isinstance(o, MutMat) and self.rows == o.rows

    __hash__ = None

    def copy(self):
        return MutMat(self.rows)

    def __repr__(self):
        return f"MutMat({self.rows})"

# }}}


# {{{ deterministic call budget

class BudgetExceeded(Exception):
    pass


def run_with_call_budget(fn, limit):
    """Run fn(); raise BudgetExceeded once more than *limit* Python-level calls were made.

    Deterministic replacement for a timer: the number of calls made by pure Python code is a
    function of its input only.
    """
    n = [0]

    def prof(frame, event, arg):
        if event == "call":
            n[0] += 1
            if n[0] > limit:
                sys.setprofile(None)
                raise BudgetExceeded()

    old = sys.getprofile()
    sys.setprofile(prof)
    try:
        return fn()
    finally:
        sys.setprofile(old)

# }}}


# {{{ canonical greedy shrinker for flat inputs

_COEFF_PREF = (1, -1, 2, -2, 3, -3)


def _rank(c):
    c = Fraction(c)
    return (c.denominator, abs(c.numerator), c.numerator < 0)


def _simpler_coeffs(c):
    return [k for k in _COEFF_PREF if _rank(k) < _rank(c)]


def _poly_candidates(p, dups):
    """Simpler variants of a term list (tuple of (exp, coeff)); ``dups`` = raw list in which
    equal exponents may repeat and the order matters (input of _sort_uniq)."""
    p = tuple(p)
    for i in range(len(p)):
        yield p[:i] + p[i + 1:]
    if dups:                  # merge two neighbouring entries of one exponent into their sum
        for i in range(len(p) - 1):
            if p[i][0] == p[i + 1][0] and p[i][1] + p[i + 1][1] != 0:
                yield p[:i] + ((p[i][0], p[i][1] + p[i + 1][1]),) + p[i + 2:]
    if p:
        m = min(e for e, _ in p)
        if m > 0:
            yield tuple((e - m, c) for e, c in p)
    exps = sorted({e for e, _ in p})
    for k in exps:            # close a gap: lower every exponent >= k by one
        if k > 0 and (k - 1) not in exps:
            yield tuple((e - 1 if e >= k else e, c) for e, c in p)
    for i, (e, c) in enumerate(p):
        if e > 0 and (dups or all(e - 1 != e2 for e2, _ in p)):
            q = list(p)
            q[i] = (e - 1, c)
            if dups or list(q) == sorted(q, key=lambda t: t[0]):
                yield tuple(q)
    def like(c, k):
        return Fraction(k) if isinstance(c, Fraction) else k

    # every coefficient of one magnitude at once (keeps cancelling pairs cancelling)
    for mag in sorted({abs(c) for _, c in p if abs(c) != 1}):
        yield tuple((e, like(c, 1 if c > 0 else -1) if abs(c) == mag else c) for e, c in p)
    # flip the sign of a whole exponent group whose first coefficient is negative
    for k in exps:
        grp = [c for e, c in p if e == k]
        if grp and grp[0] < 0:
            yield tuple((e, -c if e == k else c) for e, c in p)
    for i, (e, c) in enumerate(p):
        for k in _simpler_coeffs(c):
            q = list(p)
            q[i] = (e, like(c, k))
            yield tuple(q)


def _scalar_candidates(v):
    if isinstance(v, Fraction):
        cands = [Fraction(k) for k in (0, 1, -1, 2, -2)]
        return [k for k in cands if _rank(k) < _rank(v) or (k == 0 and v != 0)]
    out = []
    for k in (0, 1, -1, 2, -2, v // 2 if v >= 0 else -((-v) // 2), v - 1 if v > 0 else v + 1):
        if abs(k) < abs(v) or (abs(k) == abs(v) and k > v):
            if k not in out:
                out.append(k)
    return out


def shrink(args, kinds, fails, max_steps=400):
    """Greedy deterministic minimisation.  ``args``: list of values, ``kinds``: parallel list of
    "poly" | "terms" (raw list with duplicates) | "scalar" | "fixed"; ``fails(args) -> bool`` must
    be True for the initial args.  Returns the minimal args (list)."""
    args = list(args)
    steps = 0
    progress = True
    while progress and steps < max_steps:
        progress = False
        for i, kind in enumerate(kinds):
            if kind == "fixed":
                continue
            if kind == "scalar":
                cands = _scalar_candidates(args[i])
            else:
                cands = _poly_candidates(args[i], dups=(kind == "terms"))
            for cand in cands:
                if cand == args[i]:
                    continue
                trial = list(args)
                trial[i] = cand
                steps += 1
                if fails(trial):
                    args = trial
                    progress = True
                    break
            if progress:
                break
    return args

# }}}

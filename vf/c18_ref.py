"""Reference Clifford algebra for C18 -- independent of pymbolic.

A reference multivector is a dict ``{blade: value}`` where *blade* is a strictly increasing tuple of
basis-vector indices and *value* is an int / ``Fraction`` (numeric cases) or an ``RF`` (symbolic cases; exact rational
function in x, y).  Nothing in here looks at bitmaps, popcounts or closed-form sign formulas: the
product of basis blades is computed on the **index lists** (concatenate, bubble-sort with one sign
flip per exchange of neighbours, contract equal neighbours with the metric entry), and the reverse
by literally reversing the list and sorting it back.

``coef_value`` interprets a coefficient produced by the implementation (Python / numpy number or
a small pymbolic expression tree, read through its public attributes) in the same exact domain.
"""
from __future__ import annotations

from fractions import Fraction
from itertools import combinations

import numpy as np


# {{{ RF: exact rational functions in the two atoms x, y

def _padd(p, q):
    r = dict(p)
    for m, c in q.items():
        v = r.get(m, 0) + c
        if v == 0:
            r.pop(m, None)
        else:
            r[m] = v
    return r


def _pmul(p, q):
    if p == _ONE:
        return q
    if q == _ONE:
        return p
    r = {}
    for (i, j), c in p.items():
        for (k, l), e in q.items():
            m = (i + k, j + l)
            v = r.get(m, 0) + c * e
            if v == 0:
                r.pop(m, None)
            else:
                r[m] = v
    return r


_ONE = {(0, 0): 1}
_ATOMS = {"x": (1, 0), "y": (0, 1)}


class RF:
    """n/d with n, d polynomials {(deg_x, deg_y): int or Fraction} (no zero coefficients,
    d != 0).  Not normalised; equality is by cross-multiplication.  A specialised, faster
    stand-in for vf.exact.RatFun (the check cross-validates the two in ``selftest``)."""
    __slots__ = ("n", "d")
    __hash__ = None

    def __init__(self, n, d=None):
        self.n = n
        self.d = _ONE if d is None else d
        if not self.d:
            raise ZeroDivisionError("RF with zero denominator")

    @staticmethod
    def atom(name):
        return RF({_ATOMS[name]: 1})

    @staticmethod
    def lift(v):
        if isinstance(v, RF):
            return v
        if isinstance(v, (int, Fraction)) and not isinstance(v, bool):
            return RF({(0, 0): v} if v != 0 else {})
        return None

    def is_zero(self):
        return not self.n

    def __add__(self, o):
        o = RF.lift(o)
        if o is None:
            return NotImplemented
        if self.d == o.d:
            return RF(_padd(self.n, o.n), self.d)
        return RF(_padd(_pmul(self.n, o.d), _pmul(o.n, self.d)), _pmul(self.d, o.d))

    __radd__ = __add__

    def __neg__(self):
        return RF({m: -c for m, c in self.n.items()}, self.d)

    def __sub__(self, o):
        o = RF.lift(o)
        if o is None:
            return NotImplemented
        return self + (-o)

    def __rsub__(self, o):
        return RF.lift(o) + (-self)

    def __mul__(self, o):
        o = RF.lift(o)
        if o is None:
            return NotImplemented
        return RF(_pmul(self.n, o.n), _pmul(self.d, o.d))

    __rmul__ = __mul__

    def __truediv__(self, o):
        o = RF.lift(o)
        if o is None:
            return NotImplemented
        if not o.n:
            raise ZeroDivisionError("division by the zero rational function")
        return RF(_pmul(self.n, o.d), _pmul(self.d, o.n))

    def __rtruediv__(self, o):
        return RF.lift(o) / self

    def __pow__(self, e):
        if isinstance(e, RF):
            if not (set(e.n) <= {(0, 0)} and set(e.d) == {(0, 0)}):
                raise TypeError("RF ** non-constant")
            e = Fraction(e.n.get((0, 0), 0)) / e.d[(0, 0)]
        if isinstance(e, Fraction) and e.denominator == 1:
            e = int(e)
        if not isinstance(e, int) or isinstance(e, bool) or e < 0:
            raise TypeError("RF ** (not a non-negative integer)")
        r = RF(_ONE)
        for _ in range(e):
            r = r * self
        return r

    def __eq__(self, o):
        o = RF.lift(o)
        if o is None:
            return False
        return _pmul(self.n, o.d) == _pmul(o.n, self.d)

    def __ne__(self, o):
        return not self.__eq__(o)

    def to_ratfun(self):
        """The same function in vf.exact's representation (for the self-test)."""
        from vf.exact import RatFun

        def poly(p):
            tot = RatFun.lift(0)
            for (i, j), c in p.items():
                tot = tot + RatFun.lift(Fraction(c)) * RatFun.atom("x") ** i * RatFun.atom("y") ** j
            return tot
        return poly(self.n) / poly(self.d)

    def __repr__(self):
        def poly(p):
            if not p:
                return "0"
            return " + ".join(f"{c}" + (f"*x^{i}" if i else "") + (f"*y^{j}" if j else "")
                              for (i, j), c in sorted(p.items()))
        return f"({poly(self.n)})" if self.d == _ONE else f"({poly(self.n)})/({poly(self.d)})"


def selftest():
    """Cross-validate RF against vf.exact.RatFun on every binary combination of a few values."""
    from vf.exact import RatFun
    x, y = RF.atom("x"), RF.atom("y")
    X, Y = RatFun.atom("x"), RatFun.atom("y")
    half = Fraction(1, 2)
    vals = [(x, X), (y, Y), (RF.lift(2), RatFun.lift(2)), (RF.lift(half), RatFun.lift(half)),
            (x + 1, X + 1), (x * y, X * Y), (x / (x * x - 1), X / (X * X - 1)),
            (1 / y - x, 1 / Y - X), (RF.lift(0), RatFun.lift(0))]
    import operator
    for a, A in vals:
        assert a.to_ratfun() == A, (a, A)
        for b, B in vals:
            for op in (operator.add, operator.sub, operator.mul, operator.truediv):
                try:
                    r = op(a, b)
                except ZeroDivisionError:
                    r = None
                try:
                    R = op(A, B)
                except ZeroDivisionError:
                    R = None
                assert (r is None) == (R is None), (op, a, b)
                if r is not None:
                    assert r.to_ratfun() == R, (op, a, b, r, R)
                    assert (r == a) == (R == A) and (r == 0) == (R == 0), (op, a, b)
    assert x ** 2 == x * x and (x - x).is_zero() and x / x == 1 and x != y
    for tag in PTS_TAGS:            # point set: every coefficient is defined and non-zero
        assert all(a is not None and a != 0 for a in Pts.of_tag(tag).v), tag
    h = Pts.of_tag("n//2")
    assert -h != Pts(PTS_TAGS["n//2"](-p) for p in POINTS) and h - h == 0 and h / h == 1

# }}}


# {{{ the list-based blade product

def blade_product(lists, metric):
    """Product of the basis blades given as index lists -> (sorted index tuple, factor).

    Works for any number of factors; an index may occur several times."""
    lst = [i for part in lists for i in part]
    sign = 1
    n = len(lst)
    for end in range(n - 1, 0, -1):                 # bubble sort, one sign flip per exchange
        for i in range(end):
            if lst[i] > lst[i + 1]:
                lst[i], lst[i + 1] = lst[i + 1], lst[i]
                sign = -sign
    out = []
    factor = 1
    i = 0
    while i < n:                                     # e_k e_k = g_kk
        if i + 1 < n and lst[i] == lst[i + 1]:
            factor = factor * metric[lst[i]]
            i += 2
        else:
            out.append(lst[i])
            i += 1
    return tuple(out), sign * factor


def grade_selected(op, r, s, k):
    """Is grade *k* the part of the geometric product of a grade-r and a grade-s blade that the
    product *op* keeps?"""
    if op == "*":
        return True
    if op == "^":
        return k == r + s
    if op == "|":
        return k == abs(r - s)
    if op == "<<":
        return k == s - r
    if op == ">>":
        return k == r - s
    if op == "sp":
        return k == 0
    raise ValueError(op)


def all_blades(dim):
    """All basis blades of a *dim*-dimensional space, by grade, then lexicographically."""
    return [c for r in range(dim + 1) for c in combinations(range(dim), r)]

# }}}


# {{{ reference multivectors

def _clean(d):
    return {k: v for k, v in d.items() if v != 0}


class RefAlgebra:
    def __init__(self, dim, metric):
        assert len(metric) == dim
        self.dim = dim
        self.metric = tuple(metric)
        self._table = {}

    def bp(self, a, b):
        key = (a, b)
        r = self._table.get(key)
        if r is None:
            r = self._table[key] = blade_product((a, b), self.metric)
        return r

    def mul(self, m, n, op="*"):
        acc = {}
        for a, ca in m.items():
            for b, cb in n.items():
                blade, f = self.bp(a, b)
                if f == 0 or not grade_selected(op, len(a), len(b), len(blade)):
                    continue
                acc[blade] = acc.get(blade, 0) + f * ca * cb
        return _clean(acc)

    def mul3(self, m, n, p):
        """Triple geometric product straight from the concatenation of three index lists."""
        acc = {}
        for a, ca in m.items():
            for b, cb in n.items():
                for c, cc in p.items():
                    blade, f = blade_product((a, b, c), self.metric)
                    if f != 0:
                        acc[blade] = acc.get(blade, 0) + f * ca * cb * cc
        return _clean(acc)

    @staticmethod
    def add(m, n):
        acc = dict(m)
        for b, c in n.items():
            acc[b] = acc.get(b, 0) + c
        return _clean(acc)

    @staticmethod
    def neg(m):
        return {b: -c for b, c in m.items()}

    def sub(self, m, n):
        return self.add(m, self.neg(n))

    @staticmethod
    def scale(m, s):
        return _clean({b: c * s for b, c in m.items()})

    def rev(self, m):
        out = {}
        for b, c in m.items():
            blade, f = blade_product((tuple(reversed(b)),), self.metric)
            assert blade == b
            out[b] = f * c
        return out

    @staticmethod
    def invol(m):
        return {b: (c if len(b) % 2 == 0 else -c) for b, c in m.items()}

    def pseudoscalar(self):
        return {tuple(range(self.dim)): 1}

    def dual(self, m):
        return self.mul(m, self.rev(self.pseudoscalar()))

    def norm2(self, m):
        return self.mul(self.rev(m), m).get((), 0)

    def inverse(self, m):
        """rev(m)/(rev(m) m) when rev(m) m is a non-zero scalar (true for every non-null blade),
        else None."""
        rm = self.rev(m)
        p = self.mul(rm, m)
        if set(p) != {()}:
            return None
        return self.scale(rm, Fraction(1) / p[()])

    @staticmethod
    def one():
        return {(): 1}

# }}}


# {{{ Pts: values of an opaque integer-valued expression in n at fixed integer points

POINTS = (5, -7, 4, -2, 7)      # no coefficient below vanishes at any of them
PTS_FUNCTIONS = {"f": lambda t: t * t + 1}          # meaning of the function symbol f
PTS_TAGS = {                    # coefficient tag -> its plain-Python meaning
    "n//2": lambda n: n // 2,
    "n%3": lambda n: n % 3,
    "(n+1)//3": lambda n: (n + 1) // 3,
    "n/3": lambda n: Fraction(n, 3),
    "n**2": lambda n: n ** 2,
    "f(n)": lambda n: PTS_FUNCTIONS["f"](n),
    "n+1": lambda n: n + 1,
    "2*n": lambda n: 2 * n,
}


class Pts:
    """Tuple of exact values at POINTS (None = undefined there, e.g. division by zero);
    arithmetic and equality are pointwise."""
    __slots__ = ("v",)
    __hash__ = None

    def __init__(self, v):
        self.v = tuple(v)

    @staticmethod
    def lift(x):
        if isinstance(x, Pts):
            return x
        if isinstance(x, (int, Fraction)) and not isinstance(x, bool):
            return Pts((x,) * len(POINTS))
        return None

    @staticmethod
    def of_tag(tag):
        return Pts(PTS_TAGS[tag](p) for p in POINTS)

    def _bin(self, o, fn):
        o = Pts.lift(o)
        if o is None:
            return NotImplemented
        out = []
        for a, b in zip(self.v, o.v):
            if a is None or b is None:
                out.append(None)
                continue
            try:
                out.append(fn(a, b))
            except ZeroDivisionError:
                out.append(None)
        return Pts(out)

    def __add__(self, o):
        return self._bin(o, lambda a, b: a + b)

    __radd__ = __add__

    def __sub__(self, o):
        return self._bin(o, lambda a, b: a - b)

    def __rsub__(self, o):
        return self._bin(o, lambda a, b: b - a)

    def __mul__(self, o):
        return self._bin(o, lambda a, b: a * b)

    __rmul__ = __mul__

    def __truediv__(self, o):
        return self._bin(o, lambda a, b: Fraction(a) / b)

    def __rtruediv__(self, o):
        return self._bin(o, lambda a, b: Fraction(b) / a)

    def __neg__(self):
        return Pts(None if a is None else -a for a in self.v)

    def __eq__(self, o):
        o = Pts.lift(o)
        return o is not None and self.v == o.v

    def __ne__(self, o):
        return not self.__eq__(o)

    def partial_zero(self):
        """Zero or undefined at some points but not identically zero."""
        z = [a is None or a == 0 for a in self.v]
        return any(z) and not all(a == 0 for a in self.v)

    def __repr__(self):
        return "pts(" + ", ".join("?" if a is None else str(a) for a in self.v) + ")"


def _eval_at(e, n):
    """Value of the coefficient expression *e* at the integer point n (own evaluator)."""
    if not type(e).__module__.startswith("pymbolic"):
        return coef_value(e, False)[0]
    name = type(e).__name__
    if name == "Variable":
        if e.name != "n":
            raise Uninterpretable(f"variable {e.name} in a point-evaluated coefficient")
        return n
    if name == "Sum":
        return sum(_eval_at(ch, n) for ch in e.children)
    if name == "Product":
        tot = 1
        for ch in e.children:
            tot = tot * _eval_at(ch, n)
        return tot
    if name == "Quotient":
        return Fraction(_eval_at(e.numerator, n)) / _eval_at(e.denominator, n)
    if name == "FloorDiv":
        return _eval_at(e.numerator, n) // _eval_at(e.denominator, n)
    if name == "Remainder":
        return _eval_at(e.numerator, n) % _eval_at(e.denominator, n)
    if name == "Power":
        ex = _eval_at(e.exponent, n)
        if ex != int(ex):
            raise Uninterpretable(f"non-integer exponent in {e!r}")
        b = _eval_at(e.base, n)
        return Fraction(b) ** int(ex) if ex < 0 else b ** int(ex)
    if name == "Call":
        fn = e.function
        if type(fn).__name__ != "Variable" or fn.name not in PTS_FUNCTIONS \
                or len(e.parameters) != 1:
            raise Uninterpretable(f"call {e!r}")
        return PTS_FUNCTIONS[fn.name](_eval_at(e.parameters[0], n))
    raise Uninterpretable(f"coefficient expression node {name}: {e!r}")


def _pts_value(e):
    out = []
    for p in POINTS:
        try:
            out.append(_eval_at(e, p))
        except ZeroDivisionError:
            out.append(None)
    if all(a is None for a in out):
        raise ZeroDivisionError("undefined at every point")
    return Pts(out)

# }}}


# {{{ reading the implementation's coefficients

class Uninterpretable(Exception):
    pass


def coef_value(c, symbolic):
    """-> (value, inexact).  *symbolic*: False -> int / Fraction; "pts" -> Pts (values at
    POINTS); any other true value -> RF (rational function in x, y)."""
    inexact = False
    if isinstance(c, (bool, np.bool_)):
        raise Uninterpretable(f"boolean coefficient {c!r}")
    if isinstance(c, (int, np.integer)):
        v = int(c)
    elif isinstance(c, Fraction):
        v = c
    elif isinstance(c, (float, np.floating)):
        f = float(c)
        if f != f or f in (float("inf"), float("-inf")):
            raise Uninterpretable(f"non-finite coefficient {c!r}")
        v = Fraction(f)
        inexact = True
    elif type(c).__module__.startswith("pymbolic"):
        if not symbolic:
            raise Uninterpretable(f"expression coefficient {c!r} in a numeric case")
        if symbolic == "pts":
            return _pts_value(c), False
        return _expr_value(c), False
    else:
        raise Uninterpretable(f"coefficient of type {type(c).__name__}: {c!r}")
    if symbolic == "pts":
        return Pts.lift(v), inexact
    if symbolic:
        return RF.lift(v), inexact
    return v, inexact


def _expr_value(e):
    name = type(e).__name__
    if not type(e).__module__.startswith("pymbolic"):
        return RF.lift(coef_value(e, False)[0])
    if name == "Variable":
        return RF.atom(e.name)
    if name == "Sum":
        tot = RF.lift(0)
        for ch in e.children:
            tot = tot + _expr_value(ch)
        return tot
    if name == "Product":
        tot = RF.lift(1)
        for ch in e.children:
            tot = tot * _expr_value(ch)
        return tot
    if name == "Quotient":
        return _expr_value(e.numerator) / _expr_value(e.denominator)
    if name == "Power":
        return _expr_value(e.base) ** _expr_value(e.exponent)
    raise Uninterpretable(f"coefficient expression node {name}: {e!r}")

# }}}

"""Second source module for C05: a mapper class whose base lives in vf.optmappers and whose own
methods read a module global that has the SAME NAME as one in vf.optmappers, an EQUAL value and
another identity / type (1.0 vs 1, two different empty lists)."""
from pymbolic.primitives import Variable

from vf.optmappers import OptUnitBase

UNIT = 1.0
LOG: list = []


class OptUnitSub(OptUnitBase):
    def map_variable(self, expr):
        LOG.append(("sub", expr.name))
        return Variable(expr.name) * UNIT

"""Mapper classes kept in a real module file: ``optimize_mapper`` reads the *source text* of the
class it rewrites.  Used by C05.  (Do not rename the classes: the optimizer looks them up by name.)
"""
from pymbolic.mapper import CachedIdentityMapper, CachedWalkMapper, IdentityMapper, WalkMapper
from pymbolic.primitives import Sum, Variable


RENAMES = {"x": "x_r", "y": "why"}


# {{{ argument-free mappers (every on/off combination of the optimizer's options is legal)

class OptRenamer(CachedIdentityMapper):
    def map_variable(self, expr):
        new = RENAMES.get(expr.name)
        if new is None:
            return expr
        return Variable(new)

    def get_cache_key(self, expr):
        # Must add 'type(expr)', to differentiate between python scalar types.
        return (type(expr), expr)


class RefRenamer(IdentityMapper):
    def map_variable(self, expr):
        new = RENAMES.get(expr.name)
        if new is None:
            return expr
        return Variable(new)


class OptFlattener(CachedIdentityMapper):
    def map_sum(self, expr):
        children = []
        for child in expr.children:
            rec_child = self.rec(child)
            if isinstance(rec_child, Sum):
                children.extend(rec_child.children)
            else:
                children.append(rec_child)
        return Sum(tuple(children))

    def get_cache_key(self, expr):
        return (type(expr), expr)


class RefFlattener(IdentityMapper):
    def map_sum(self, expr):
        children = []
        for child in expr.children:
            rec_child = self.rec(child)
            if isinstance(rec_child, Sum):
                children.extend(rec_child.children)
            else:
                children.append(rec_child)
        return Sum(tuple(children))

class OptWalker(CachedWalkMapper):
    """A memoizing walker: every handler returns None, so a memo probe that takes None for
    'not cached' recomputes."""

    def post_visit(self, expr):
        pass

    def get_cache_key(self, expr):
        return (type(expr), expr)


class RefWalker(WalkMapper):
    def post_visit(self, expr):
        pass


class OptAliasTargets(CachedIdentityMapper):
    """Overrides handlers that the base classes ALSO use as the target of an alias
    (map_remainder = map_quotient, map_right_shift = map_left_shift, map_bitwise_xor =
    map_bitwise_or ...): the override is for the one node type, the aliases keep the base
    behaviour."""

    def map_quotient(self, expr):
        from pymbolic.primitives import Power, Product
        return Product((self.rec(expr.numerator), Power(self.rec(expr.denominator), -1)))

    def map_left_shift(self, expr):
        from pymbolic.primitives import Power, Product
        return Product((self.rec(expr.shiftee), Power(2, self.rec(expr.shift))))

    def map_bitwise_or(self, expr):
        from pymbolic.primitives import Max
        return Max(tuple(self.rec(c) for c in expr.children))

    def get_cache_key(self, expr):
        return (type(expr), expr)


class RefAliasTargets(IdentityMapper):
    def map_quotient(self, expr):
        from pymbolic.primitives import Power, Product
        return Product((self.rec(expr.numerator), Power(self.rec(expr.denominator), -1)))

    def map_left_shift(self, expr):
        from pymbolic.primitives import Power, Product
        return Product((self.rec(expr.shiftee), Power(2, self.rec(expr.shift))))

    def map_bitwise_or(self, expr):
        from pymbolic.primitives import Max
        return Max(tuple(self.rec(c) for c in expr.children))

# }}}


# {{{ mappers that keep their arguments (only the inlining options apply)

class OptStock(CachedIdentityMapper):
    def map_variable(self, expr, *args, **kwargs):
        if expr.name == "x":
            return Variable("x_s")
        return expr


class RefStock(IdentityMapper):
    def map_variable(self, expr, *args, **kwargs):
        if expr.name == "x":
            return Variable("x_s")
        return expr


class OptArgRenamer(CachedIdentityMapper):
    def map_variable(self, expr, suffix, *args, **kwargs):
        return Variable(f"{expr.name}_{suffix!r}")


class RefArgRenamer(IdentityMapper):
    def map_variable(self, expr, suffix, *args, **kwargs):
        return Variable(f"{expr.name}_{suffix!r}")

# }}}


# {{{ a base class whose methods read a module global (the subclass in optmappers2.py reads ITS
# module's global of the same name, which is equal but not the same object)

UNIT = 1
LOG: list = []


class OptUnitBase(CachedIdentityMapper):
    def map_constant(self, expr):
        LOG.append(("base", expr))
        return expr * UNIT

    def get_cache_key(self, expr):
        return (type(expr), expr)

# }}}

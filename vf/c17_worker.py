"""C17 -- producer / consumer processes.

    python [-O] -m vf.c17_worker produce <tier> <cfg> <dir> [selection]
    python [-O] -m vf.c17_worker consume <tier> <cfg> <producer-cfg,...> <dir> [selection]

selection = all | shard:<k>:<n> | entry:<pool entry name>

started by vf/checks/c17.py with PYTHONHASHSEED set; `cfg` ('<seed>' or '<seed>-O') is what the
parent asked for and is verified here.  The producer writes `prod-<cfg>.pkl` (pickle bytes of every
pool entry after every producer history under every protocol, grouped by identical bytes, plus the
persistent-hash digests) and `prod-<cfg>.json` (counters, producer-side failures).  The consumer
reads the producer file, runs every history of the consumer state graph (vf.c17_pool) on every
distinct pickle and writes
`cons-<cfg>.json`.

No `assert` statements: this module also runs under -O.
"""
from __future__ import annotations

import hashlib
import itertools
import json
import math
import os
import pickle
import sys
import warnings

warnings.simplefilter("ignore")

from vf import c17_pool as P                                    # noqa: E402
from vf import refsem                                           # noqa: E402
from vf.spec import build                                       # noqa: E402

PROD_HISTS = P.producer_histories()
CONS_STATES, CONS_TRANSITIONS, CONS_HISTORIES = P.state_graph()
COMPILED_STATES, COMPILED_TRANSITIONS, COMPILED_HISTORIES = P.state_graph(
    P.COMPILED_CONS_OPS, P.compiled_step)
DIGEST_HISTORIES, DIGEST_STATES = P.digest_histories()


def orders_for(entry):
    """-> (histories to execute, number of canonical states they visit)"""
    if entry["family"] == "compiled":
        return COMPILED_HISTORIES, len(COMPILED_STATES)
    return CONS_HISTORIES, len(CONS_STATES)


def verify_config(cfg):
    seed, opt = P.parse_config(cfg)
    if os.environ.get("PYTHONHASHSEED") != str(seed) or bool(sys.flags.optimize) != opt \
            or __debug__ == opt:
        raise SystemExit(f"configuration mismatch: asked {cfg}, have PYTHONHASHSEED="
                         f"{os.environ.get('PYTHONHASHSEED')} optimize={sys.flags.optimize}")
    import pymbolic
    repo = os.environ.get("VF_REPO", "/repo")
    if not os.path.realpath(pymbolic.__file__).startswith(os.path.realpath(repo) + os.sep):
        raise SystemExit(f"pymbolic imported from {pymbolic.__file__}, not from {repo}")


def exc_name(e):
    return type(e).__name__


# {{{ builder thunks

def _thunk(s):
    """Closure that constructs what vf.spec.build(s) constructs -- the same direct constructor
    calls, without re-interpreting the spec (and without a warnings context) on every call."""
    from immutabledict import immutabledict

    from vf.spec import _lookup
    t = s[0]
    if t[0].isupper():
        cls = _lookup(t)
        ch = [_thunk(c) for c in s[1:]]
        return lambda: cls(*[c() for c in ch])
    if t == "tuple":
        ch = [_thunk(c) for c in s[1:]]
        return lambda: tuple([c() for c in ch])
    if t == "map":
        items = [(k, _thunk(v)) for k, v in s[1:]]
        return lambda: immutabledict([(k, v()) for k, v in items])
    if t == "dict":
        items = [(k, _thunk(v)) for k, v in s[1:]]
        return lambda: {k: v() for k, v in items}
    if t in ("int", "float", "bool", "complex", "str", "none", "type"):
        v = build(s)            # immutable, and build() returns the very same object each time
        return lambda: v
    return lambda: build(s)


_BUILDERS = {}


def builder(spec, shared=False):
    """Validated thunk: its result reads back (vf.spec.to_spec) exactly like build(spec)'s.
    shared=True: vf.spec.build_shared (equal sub-specs become ONE object), fresh on every call."""
    if shared:
        from vf.spec import build_shared
        return lambda: build_shared(spec)
    b = _BUILDERS.get(spec)
    if b is None:
        from vf.spec import to_spec
        b = _thunk(spec)
        try:
            ref = to_spec(build(spec))
        except Exception:  # noqa: BLE001
            b = lambda: build(spec)         # noqa: E731   (whatever build does, do that)
        else:
            if to_spec(b()) != ref or type(b()) is not type(build(spec)):
                raise SystemExit(f"builder thunk disagrees with vf.spec.build on {spec!r}")
        _BUILDERS[spec] = b
    return b

# }}}


# {{{ persistent digests

def typed_twin_specs(spec):
    """Specs equal to *spec* for == but with constants of another type: ints as floats; 0 / 1 as
    bools.  Only specs that differ from *spec* are returned."""
    from vf.spec import rebuild, spec_children

    def tr(s, f):
        if not isinstance(s, tuple) or not s:
            return s
        if s[0] == "int" and len(s) == 2 and isinstance(s[1], int):
            return f(s[1])
        try:
            ch = spec_children(s)
        except Exception:  # noqa: BLE001
            return s
        if not ch:
            return s
        return rebuild(s, [tr(c, f) for c in ch])

    out = []
    for f in (lambda v: ("float", float(v)) if abs(v) < 2 ** 53 else ("int", v),
              lambda v: ("bool", bool(v)) if v in (0, 1) else ("int", v)):
        try:
            t = tr(spec, f)
        except Exception:  # noqa: BLE001
            continue
        if t != spec and t not in out:
            out.append(t)
    return out

def digests(obj):
    """{'walk': outcome, 'kb': outcome}: the deprecated-but-present walk mapper fed with sha256
    (as in test_persistent_hash.py) and pytools' KeyBuilder on the expression itself (what the
    mapper's deprecation notice tells users to do)."""
    from pymbolic.mapper.persistent_hash import PersistentHashWalkMapper
    from pytools.persistent_dict import KeyBuilder
    out = {}
    try:
        h = hashlib.sha256()
        PersistentHashWalkMapper(h)(obj)
        out["walk"] = ["ok", h.hexdigest()]
    except RecursionError:
        raise
    except Exception as e:  # noqa: BLE001
        out["walk"] = ["err", exc_name(e)]
    try:
        out["kb"] = ["ok", KeyBuilder()(obj)]
    except RecursionError:
        raise
    except Exception as e:  # noqa: BLE001
        out["kb"] = ["err", exc_name(e)]
    return out

# }}}


# {{{ compiled expressions

def make_compiled(spec, vars_spec):
    import pymbolic
    return pymbolic.compile(build(spec), None if vars_spec is None else build(vars_spec))


def compiled_reference(entry):
    """[(argument tuple, reference outcome)] over the whole box -- vf.refsem on the spec."""
    names = P.compiled_argnames(entry)
    used = {c[1][1] for c in _walk(entry["prod"]) if c[0] == "Variable"}
    out = []
    for vals in itertools.product(P.COMPILED_BOX, repeat=len(names)):
        env = {n: v for n, v in zip(names, vals) if n in used}
        env["math"] = math
        out.append((vals, refsem.outcome(refsem.evaluate, entry["prod"], env)))
    return out


def _walk(s):
    from vf.spec import walk
    return walk(s)


def compiled_mismatch(fn, reference):
    for vals, want in reference:
        if refsem.is_skip(want):
            continue
        got = refsem.outcome(fn, *vals)
        if not refsem.outcomes_equal(want, got):
            return (f"called with {vals!r}: expected {refsem.show_outcome(want)}, got "
                    f"{refsem.show_outcome(got)}")
    return None

# }}}


# {{{ producer

def produce(tier, cfg, outdir, sel="all"):
    verify_config(cfg)
    entries = select(P.pool(tier), sel)
    result = {}
    fails = []
    n_hist = n_ops = n_refused = 0
    for e in entries:
        compiled = e["family"] == "compiled"
        if compiled:
            reference = compiled_reference(e)

            def make(e=e):
                return make_compiled(e["prod"], e["vars"])
        else:
            make = builder(e["prod"], e.get("prod_shared", False))
        groups = {}
        for proto in P.protocols_for(e, tier):
            g = groups[proto] = {}
            for hi, hist in enumerate(PROD_HISTS):
                if "digest" in hist and (compiled or proto not in P.DIGEST_PROTOCOLS):
                    continue
                n_hist += 1
                data = None
                try:
                    o = make()
                    first_hash = None
                    for op in hist:
                        n_ops += 1
                        if op == "hash":
                            h = hash(o)
                            if first_hash is not None and h != first_hash:
                                fails.append(dict(entry=e["name"], kind="producer:hash-unstable",
                                                  phist=hi, proto=proto, detail=""))
                            first_hash = h
                        elif op == "eq":
                            if compiled:
                                bad = compiled_mismatch(o, reference)
                                if bad:
                                    fails.append(dict(entry=e["name"],
                                                      kind="producer:compiled-value", phist=hi,
                                                      proto=proto, detail=bad))
                            else:
                                c = make()
                                if not (o == c) or (o != c):
                                    fails.append(dict(entry=e["name"], kind="producer:eq-false",
                                                      phist=hi, proto=proto,
                                                      detail="a fresh clone is not == in the "
                                                             "producer"))
                        elif op == "digest":
                            digests(o)          # outcomes (keys or refusals) are compared later
                        else:
                            data = pickle.dumps(o, proto)
                except RecursionError:
                    raise
                except Exception as ex:  # noqa: BLE001
                    if op == "pickle" and e.get("may_refuse") \
                            and isinstance(ex, NotImplementedError):
                        n_refused += 1      # backend-only old-style class: refusal is fine
                        continue
                    fails.append(dict(entry=e["name"], kind=f"producer:raises:{op}:{exc_name(ex)}",
                                      phist=hi, proto=proto, detail=repr(ex)[:200]))
                    continue
                g.setdefault(data, []).append(hi)
        rec = {"pickles": {p_: list(g.items()) for p_, g in groups.items()}}
        if not compiled:
            try:
                rec["digests"] = digests(make())
            except Exception as ex:  # noqa: BLE001
                rec["digests"] = {"walk": ["err", "build:" + exc_name(ex)],
                                  "kb": ["err", "build:" + exc_name(ex)]}
        result[e["name"]] = rec
    with open(os.path.join(outdir, f"prod-{cfg}.pkl.tmp"), "wb") as fh:
        pickle.dump(result, fh, protocol=4)
    os.replace(os.path.join(outdir, f"prod-{cfg}.pkl.tmp"), os.path.join(outdir, f"prod-{cfg}.pkl"))
    report = dict(cfg=cfg, entries=len(entries), producer_histories=n_hist, producer_ops=n_ops,
                  fails=fails, str_hash=hash("x"), refused_by_pickle=n_refused)
    with open(os.path.join(outdir, f"prod-{cfg}.json"), "w") as fh:
        json.dump(report, fh)

# }}}


# {{{ consumer

def run_order(order, data, make):
    """One consumer history on fresh objects; *make* builds the local expression from its spec.
    -> (n_ops, None | (kind, detail))"""
    u = l = None         # noqa: E741
    hu = hl = None
    d = {}
    s = set()
    last = None          # name under which the (single) key was stored last
    ins_u = ins_l = False
    ku = kl = False
    n = 0
    op = "?"
    try:
        for op in order:
            n += 1
            if op == "U":
                u = pickle.loads(data)
            elif op == "B":
                l = make()        # noqa: E741
            elif op == "H":
                if u is not None:
                    h = hash(u)
                    if hu is not None and h != hu:
                        return n, ("hash-unstable", "hash(unpickled) changed")
                    hu = h
                if l is not None:
                    h = hash(l)
                    if hl is not None and h != hl:
                        return n, ("hash-unstable", "hash(local) changed")
                    hl = h
                if hu is not None and hl is not None and hu != hl:
                    return n, ("hash-differs", "hash(unpickled) != hash(local)")
            elif op == "D":
                # persistent keys of every object that has none yet (KeyBuilder caches the key
                # in a per-instance attribute); the keys themselves are compared elsewhere
                if u is not None and not ku:
                    digests(u)
                    ku = True
                if l is not None and not kl:
                    digests(l)
                    kl = True
            elif op == "E":
                if not (u == l) or not (l == u):
                    return n, ("eq-false", "unpickled == local is False")
                if u != l:
                    return n, ("ne-true", "unpickled != local is True")
            elif op == "I":
                if u is not None and not ins_u:
                    d[u] = "u"
                    s.add(u)
                    ins_u, last = True, "u"
                if l is not None and not ins_l:
                    d[l] = "l"
                    s.add(l)
                    ins_l, last = True, "l"
                if len(d) != 1 or len(s) != 1:
                    return n, ("dict-dup", "unpickled and local occupy two dict/set slots")
            elif op == "L":
                for o in (u, l):
                    if o is None:
                        continue
                    if last is None:
                        if o in d or o in s:
                            return n, ("dict-ghost", "found in an empty dict/set")
                    else:
                        if o not in s:
                            return n, ("set-miss", "not found in the set holding its equal")
                        if d.get(o) != last:
                            return n, ("dict-miss", "not found in the dict holding its equal")
        # ---- completion and final observation: the complete list of invariants -----------------
        if u is None:
            op = "U"
            n += 1
            u = pickle.loads(data)
        if l is None:
            op = "B"
            n += 1
            l = make()        # noqa: E741
        op = "final"
        n += 1
        if not (u == l) or not (l == u):
            return n, ("eq-false", "unpickled == local is False")
        if u != l:
            return n, ("ne-true", "unpickled != local is True")
        a, b = hash(u), hash(l)
        if (hu is not None and a != hu) or (hl is not None and b != hl):
            return n, ("hash-unstable", "hash changed during the history")
        if a != b:
            return n, ("hash-differs", "hash(unpickled) != hash(local)")
        if l not in {u}:
            return n, ("set-miss", "local in {unpickled} is False")
        if {l: 1}.get(u) != 1:
            return n, ("dict-miss", "{local: 1}[unpickled] fails")
        if last is not None:
            if u not in s or l not in s or d.get(u) != last or d.get(l) != last:
                return n, ("dict-miss", "look-up in the dict/set filled during the history fails")
    except RecursionError:
        raise
    except Exception as ex:  # noqa: BLE001
        return n, (f"raises:{op if op in ('U', 'B') else 'obs'}:{exc_name(ex)}",
                   f"operation {op}: " + repr(ex)[:200])
    return n, None


def run_compiled_order(order, data, entry, reference):
    u = l = None         # noqa: E741
    n = 0
    op = "?"
    try:
        for op in order:
            n += 1
            if op == "U":
                u = pickle.loads(data)
            elif op == "B":
                l = make_compiled(entry["cons"], entry["vars"])      # noqa: E741
            else:
                if l is not None:
                    bad = compiled_mismatch(l, reference)
                    if bad:
                        return n, ("compiled-local-value", bad)
                if u is not None:
                    bad = compiled_mismatch(u, reference)
                    if bad:
                        return n, ("compiled-value", bad)
        if u is None:
            op = "U"
            n += 1
            u = pickle.loads(data)
        if l is None:
            op = "B"
            n += 1
            l = make_compiled(entry["cons"], entry["vars"])      # noqa: E741
        op = "final"
        n += 1
        bad = compiled_mismatch(l, reference)
        if bad:
            return n, ("compiled-local-value", bad)
        bad = compiled_mismatch(u, reference)
        if bad:
            return n, ("compiled-value", bad)
    except RecursionError:
        raise
    except Exception as ex:  # noqa: BLE001
        return n, (f"raises:{op if op in ('U', 'B') else 'call'}:{exc_name(ex)}",
                   f"operation {op}: " + repr(ex)[:200])
    return n, None


SIMPLE_FAMILIES = ("single", "extra", "user", "arith")


def is_complex(e, by_name):
    """Nestings and variants of nestings: a failure there is first looked for in the simple
    entries of the node classes it contains."""
    if e["family"] == "nest":
        return True
    return e["family"] == "variant" and by_name[e["base"]]["family"] == "nest"


def select(entries, sel):
    """sel: 'all' | 'shard:<k>:<n>' | 'entry:<name>'"""
    if sel == "all":
        return list(entries)
    if sel.startswith("shard:"):
        _, k, n = sel.split(":")
        return [e for i, e in enumerate(entries) if i % int(n) == int(k)]
    name = sel.split(":", 1)[1]
    return [e for e in entries if e["name"] == name]


class Consumer:
    """Consumes the pickles of SEVERAL producer configurations in one consumer process.  Pickles
    with identical bytes (normally: the same entry, protocol and history class from every
    producer) are executed once -- this process's behaviour is a function of the bytes -- and the
    outcome stands for every (producer, producer history) that delivered those bytes."""

    def __init__(self, tier, cfg, prods):
        self.tier, self.cfg, self.prods = tier, cfg, prods       # prods: {pcfg: producer dict}
        self.by_name = P.pool_by_name(tier)
        self.memo = {}
        self.consumed = []          # (pcfg, entry name) with at least one pickle consumed
        self.counters = dict(histories=0, transitions=0, states=0, pickles_distinct=0,
                             pair_pickles_covered=0, pair_histories_covered=0,
                             producer_histories_covered=0, digests=0, entries=0)

    def has(self, name):
        return any(name in pr for pr in self.prods.values())

    def evaluate(self, e, count=True):
        """-> {kind: failure record} for one pool entry (memoised)."""
        if e["name"] in self.memo:
            return self.memo[e["name"]]
        fails = {}
        self.memo[e["name"]] = fails
        counters = self.counters if count else dict.fromkeys(self.counters, 0)
        recs = {pc: pr[e["name"]] for pc, pr in self.prods.items() if e["name"] in pr}
        if not recs:
            return fails        # no producer produced it (and said why)

        def fail(kind, detail, proto=None, sources=(), order=None, pcfg=None):
            f = fails.get(kind)
            if f is None:
                f = fails[kind] = dict(
                    entry=e["name"], kind=kind, detail=detail, n=0, protos=set(), phists=set(),
                    pcfgs=set(), order=None, orders_failed=0)
            f["n"] += max(1, len(sources))
            if proto is not None:
                f["protos"].add(proto)
            for pc, phists in sources:
                f["pcfgs"].add(pc)
                f["phists"].update(phists)
            if pcfg is not None:
                f["pcfgs"].add(pcfg)
            if order is not None:
                f["orders_failed"] += 1
                if f["order"] is None or (len(order), order) < (len(f["order"]), f["order"]):
                    f["order"] = order

        counters["entries"] += 1
        orders, nstates = orders_for(e)
        compiled = e["family"] == "compiled"
        reference = compiled_reference(e) if compiled else None
        spec = e["cons"]
        make = None if compiled else builder(spec, e.get("cons_shared", False))
        # merge identical bytes across producers: {proto: {bytes: [(pcfg, phists), ...]}}
        merged = {}
        for pc, rec in recs.items():
            got = False
            for proto, groups in rec["pickles"].items():
                m = merged.setdefault(proto, {})
                for data, phists in groups:
                    m.setdefault(data, []).append((pc, phists))
                    got = True
            if got and count:
                self.consumed.append((pc, e["name"]))
        fam = e["family"] if e["family"] != "variant" else self.by_name[e["base"]]["family"]
        with_digest = fam in P.DIGEST_FAMILIES[self.tier]
        base_orders, base_nstates = orders, nstates
        for proto in sorted(merged):
            if with_digest and proto in P.DIGEST_PROTOCOLS:
                orders, nstates = base_orders + DIGEST_HISTORIES, base_nstates + DIGEST_STATES
            else:
                orders, nstates = base_orders, base_nstates
            for data, sources in merged[proto].items():
                counters["pickles_distinct"] += 1
                counters["pair_pickles_covered"] += len(sources)
                counters["producer_histories_covered"] += sum(len(ph) for _, ph in sources)
                counters["pair_histories_covered"] += len(orders) * len(sources)
                counters["states"] += nstates
                for order in orders:
                    if compiled:
                        n, bad = run_compiled_order(order, data, e, reference)
                    else:
                        n, bad = run_order(order, data, make)
                    counters["histories"] += 1
                    counters["transitions"] += n
                    if bad:
                        fail(bad[0], bad[1], proto, sources, order)
        if compiled:
            return fails
        # ---- persistent digests ---------------------------------------------------------------
        try:
            # keys of a clone that is dropped at once, then the ==-equal typed twins of the
            # expression (every int constant as a float / 0 and 1 as bools) are keyed and stay
            # alive while the expression itself is keyed: its keys must not depend on that
            d0 = digests(make())
            twins_alive = []
            for tw in typed_twin_specs(spec):
                try:
                    t_obj = build(tw)
                except RecursionError:
                    raise
                except Exception:  # noqa: BLE001
                    continue
                digests(t_obj)
                twins_alive.append(t_obj)
            counters["digest_twins_alive"] = counters.get("digest_twins_alive", 0) \
                + len(twins_alive)
            local = make()
            dl = digests(local)
            for k in ("walk", "kb"):
                if twins_alive and d0[k] != dl[k]:
                    fail(f"digest-after-twin:{k}",
                         f"{d0[k]} when keyed alone, {dl[k]} when an ==-equal expression with "
                         "constants of another type had been keyed before and was still alive")
            d2 = digests(local)                 # same object again (digest cache filled)
            try:
                hash(local)
                d2h = digests(local)            # ... and after hashing
            except TypeError:
                d2h = d2                        # unhashable: reported by the histories
            d3 = digests(make())                # fresh clone
        except RecursionError:
            raise
        except Exception as ex:  # noqa: BLE001
            fail(f"raises:digest:{exc_name(ex)}", repr(ex)[:200])
            return fails
        unpickled = []
        for proto in sorted(merged):
            for data, sources in merged[proto].items():
                try:
                    du = digests(pickle.loads(data))
                except RecursionError:
                    raise
                except Exception as ex:  # noqa: BLE001
                    du = {k: ["err", "unpickle:" + exc_name(ex)] for k in ("walk", "kb")}
                unpickled.append((proto, sources, du))
        is_variant = e["family"] == "variant"
        kinds = P.VARIANT_DIGESTS.get(e.get("variant"), ("walk", "kb")) if is_variant \
            else ("walk", "kb")
        for k in kinds:
            counters["digests"] += 4 + len(unpickled) + len(recs)
            for pc, rec in recs.items():
                want = rec["digests"][k]
                if dl[k] != want:
                    kind = f"digest-variant:{k}:{e['variant']}" if is_variant \
                        else f"digest-config:{k}"
                    fail(kind, f"producer ({pc}) digest {want}, consumer ({self.cfg}) digest "
                               f"{dl[k]}", pcfg=pc)
            if d2[k] != dl[k] or d2h[k] != dl[k]:
                fail(f"digest-unstable:{k}", f"{dl[k]} then {d2[k]} / {d2h[k]} on the same "
                                             "object")
            if d3[k] != dl[k]:
                fail(f"digest-clone:{k}", f"{dl[k]} vs {d3[k]} for a fresh clone")
            if is_variant:
                continue        # unpickled is the base form: covered by digest-variant
            for proto, sources, du in unpickled:
                if du[k] != dl[k]:
                    fail(f"digest-unpickled:{k}",
                         f"digest of the unpickled expression {du[k]}, of the local one {dl[k]}",
                         proto, sources)
        return fails

    def simpler(self, e):
        """Simple pool entries for the node classes occurring in the complex entry *e*."""
        out = []
        for c in P.pool(self.tier):
            if c["family"] in SIMPLE_FAMILIES and c["prod"][0] in e["tags"]:
                out.append(c)
            elif (c["family"] == "variant" and e["family"] == "variant"
                  and c["variant"] == e["variant"] and c["prod"][0] in e["tags"]
                  and self.by_name[c["base"]]["family"] in SIMPLE_FAMILIES):
                out.append(c)
        return out

    def attributed_to(self, e, kind):
        for c in self.simpler(e):
            if self.has(c["name"]) and kind in self.evaluate(c, count=False):
                return c["name"]
        return None


def consume(tier, cfg, pcfgs, ddir, sel="all"):
    """pcfgs: comma-separated producer configurations whose files are in *ddir*."""
    verify_config(cfg)
    prods = {}
    for pc in pcfgs.split(","):
        with open(os.path.join(ddir, f"prod-{pc}.pkl"), "rb") as fh:
            prods[pc] = pickle.load(fh)
    cons = Consumer(tier, cfg, prods)
    out = []
    attributed = 0
    for e in select(P.pool(tier), sel):
        for kind, f in cons.evaluate(e).items():
            if is_complex(e, cons.by_name) and not sel.startswith("entry:"):
                to = cons.attributed_to(e, kind)
                if to is not None:
                    attributed += f["n"]
                    continue
            f = dict(f)
            f["protos"] = sorted(f["protos"])
            f["phists"] = sorted(f["phists"])
            f["pcfgs"] = sorted(f["pcfgs"], key=pcfgs.split(",").index)
            f["order"] = list(f["order"]) if f["order"] else None
            f["n_orders"] = len(orders_for(e)[0])
            out.append(f)
    cons.counters["attributed_to_simpler_entry"] = attributed
    import vf.usercls_gen as ucls
    report = dict(cfg=cfg, pcfgs=pcfgs.split(","), counters=cons.counters, fails=out,
                  str_hash=hash("x"), consumed=cons.consumed,
                  broken_user_classes=dict(getattr(ucls, "BROKEN", {})))
    with open(os.path.join(ddir, f"cons-{cfg}.json"), "w") as fh:
        json.dump(report, fh)

# }}}


def main(argv):
    if argv[0] == "produce":
        produce(argv[1], argv[2], argv[3], argv[4] if len(argv) > 4 else "all")
    elif argv[0] == "consume":
        consume(argv[1], argv[2], argv[3], argv[4], argv[5] if len(argv) > 5 else "all")
    else:
        raise SystemExit("usage: produce|consume ...")


if __name__ == "__main__":
    main(sys.argv[1:])
